(** Sched: executable, set-valued model of one maintenance round of the Drummer
    scheduler (scheduler.go: restore, restoreUnavailableShards, restoreFailed,
    repair, getRepairAddRequest, getReplacementNode, getRepairDeleteRequest,
    getCreateRequest, killZombieReplicas; shardimage.go: shardRepair predicates,
    getShardForRepair; filter.go, selector.go, validation.go, nodehostimage.go;
    drummer.go: maintainShards = restore -> repair(restored) -> kill -> validate).

    ------------------------------------------------------------------------
    INTERFACE (stable; used by SchedRun.v, SchedProofs.v, props C02/C11/C12 and
    by the closed-loop model):

      sctx, mkCtx tick defs view hosts kill      the scheduler context
      ctx_of_db d                                 the context of a DB state
      ctx_wf C                                    map keys agree with the id fields (DB invariant)
      outcome  = OBatch b | OError | OCrash       what maintainShards does:
                   OBatch b   returns (b, nil)  (validateNodeHostRequest passed)
                   OError     returns (nil, errNotEnoughNodeHost): the WHOLE round is dropped
                   OCrash     Go panic (getShardSize/getAppName "failed to locate the
                              shard", or validateNodeHostRequest)
      allowed P C o : bool                        DECISION PROCEDURE: o is a possible outcome
                                                  of maintainShards in context C for SOME Go
                                                  map iteration order and SOME random source
      allowed_batch P C b := allowed P C (OBatch b)
      canon P C idf : outcome                     one canonical element of the allowed set
                                                  (first candidates in trie order, the new id
                                                  for shard s is [idf s]); executable;
                                                  SchedProofs.allowed_canon: it is allowed
      per-shard decision data (all take P C and a shard c of the view):
        sr_failed sr_ok sr_wait                   the shardRepair lists (as SETS; order = map order)
        sr_quorum sr_available add_required create_required delete_required need_restore
        in_repair                                 shard is in shardsToRepair
        restorable c, restore_set c               failed members that can be / are restored
        restored_ids                              ids of the shards that get restore requests
        repair_action c : action                  the branch of repair's if/else-if chain
        candidates n                              allowed target hosts when n = failedReplicas[0]
        kill_req k, kills                         the KILL requests (exact list)
      valid_req q                                 validateNodeHostRequest does not panic

    Nondeterminism.  Go iterates maps, so the order of shards in shardsToRepair, of
    replicas inside failedReplicas/okReplicas/replicasToStart (the sort.Slice by
    ShardID inside ONE shard is a no-op ordering), of nodeHostList and of the member
    lists of CREATE requests is arbitrary; the random source contributes arbitrary
    indices and the new replica id.  The model is therefore set-valued:
      failedReplicas[0]   = ANY failed member;  replicasToStart[0] = ANY waiting member;
      recipient           = address of ANY ok member;
      target host         = ANY element of the live non-hosting hosts in the failed
                            member's region if that set is non-empty, else ANY live
                            non-hosting host; none at all = errNotEnoughNodeHost;
      new replica id      = arbitrary (0 makes validateNodeHostRequest panic);
      batch               = RU ++ RF ++ RP ++ K, where RU (restoreUnavailableShards), RF
                            (restoreFailed) and RP (repair) list the shards in ONE common
                            arbitrary order; every shard contributes to at most one of
                            the three segments, so any three orders are consistent.

    Literal arithmetic.  liveFilter: [currentTick - v.Tick < gap] (strict), available():
    [!(currentTick - Tick > ttl)].  Both are unsigned subtractions in Go; the model uses
    truncated subtraction on N.  They differ only if a stored tick is LARGER than the
    context tick (Go wraps to a huge gap: not live / failed; the model yields gap 0:
    live / not failed).  C05_no_underflow (last <= now on every reachable DB state)
    excludes that; the correspondence generators keep stored ticks <= tick.

    Lookup of a shard definition: Go scans s.shards (built from the map sc.Shards in
    map order) for the first entry whose ShardId field matches; the model reads the
    map at the key.  Same thing when key = ShardId field (DB invariant; [try_create_shard]
    inserts at [sd_id]).  Likewise restoreFailed's [done] map only matters when two view
    entries carry the same ShardID field, which [ctx_wf] excludes; the model omits it.

    Not modelled: the pb.Config copied into CREATE requests; log output.
    No proofs in this file. *)
From stdpp Require Import gmap list numbers sorting.
From Drummer.Model Require Import DB.
Local Open Scope N_scope.

Record sctx := mkCtx {
  c_tick : N;
  c_defs : gmap N shard_def;     (* sc.Shards *)
  c_view : gmap N shard;         (* sc.ShardImage.Shards *)
  c_hosts : gmap N hostspec;     (* sc.NodeHostImage.Nodehosts *)
  c_kill : list kill_entry }.    (* sc.ShardImage.ReplicasToKill *)

Definition ctx_of_db (d : db) : sctx := mkCtx (d_tick d) (d_shards d) (d_view d) (d_hosts d) (d_kill d).

(** keys agree with the id fields: holds on every DB state ([get_shard], [sync_shard],
    [new_replica], [host_update] insert at the id they store) *)
Definition shard_wf (k : N) (c : shard) : Prop :=
  s_id c = k ∧ map_Forall (λ j n, r_id n = j ∧ r_shard n = k) (s_reps c).
Definition ctx_wf (C : sctx) : Prop :=
  map_Forall shard_wf (c_view C) ∧ map_Forall (λ a h, h_addr h = a) (c_hosts C).

(** settings.Soft.UnknownRegionName ("no-idea-region"); the harness bijection maps
    this number to that string *)
Definition unknown_region : N := 999.

(* decidable equality of requests (derived, no content) *)
Global Instance rtype_eq_dec : EqDecision rtype.
Proof. solve_decision. Defined.
Global Instance request_eq_dec : EqDecision request.
Proof. solve_decision. Defined.

Inductive outcome := OBatch (b : list request) | OError | OCrash.
Inductive action :=
| ANone                         (* not in shardsToRepair, restored, or no branch taken *)
| ADelete
| ACreate (sd : shard_def)      (* join-CREATE of a waiting member *)
| AAdd
| AUndefined.                   (* getShardSize panics *)

Definition is_kill (q : request) : bool := match q_type q with RKill => true | _ => false end.
Definition is_add (q : request) : bool := match q_type q with RAdd => true | _ => false end.
Definition is_delete (q : request) : bool := match q_type q with RDelete => true | _ => false end.
Definition is_create (q : request) : bool := match q_type q with RCreate => true | _ => false end.
Definition is_restore (q : request) : bool := is_create q && q_restore q.
Definition is_change (q : request) : bool := is_add q || is_delete q.

(** validation.go: validateNodeHostRequest does not panic *)
Definition valid_req (q : request) : bool :=
  (if is_add q then bool_decide (length (q_addrs q) = 1%nat)
   else bool_decide (length (q_rids q) = length (q_addrs q)))
  && forallb (λ x, negb (x =? 0)) (q_rids q)
  && forallb (λ a, negb (a =? 0)) (q_addrs q)
  && negb (q_raft q =? 0)
  && match q_type q with
     | RCreate => negb (q_inst q =? 0) && negb (q_app q =? 0) && negb (bool_decide (q_rids q = []))
     | _ => match q_members q with [] => false | m :: _ => negb (m =? 0) end && negb (q_shard q =? 0)
     end.

Definition kill_req (k : kill_entry) : request :=
  mkReq RKill (k_shard k) [k_replica k] 0 [] [] 0 (k_addr k) false false 0.

(** adjacent duplicates removed: [squash [1;1;2;2;1] = [1;2;1]] *)
Fixpoint squash (l : list N) : list N :=
  match l with
  | [] => []
  | x :: l' => match l' with
               | y :: _ => if decide (x = y) then squash l' else x :: squash l'
               | [] => [x]
               end
  end.
Fixpoint nondecr (l : list N) : bool :=
  match l with
  | [] => true
  | x :: l' => match l' with y :: _ => (x <=? y) && nondecr l' | [] => true end
  end.

Section Sched.
Context (P : params) (C : sctx).

Definition now : N := c_tick C.
Definition entries : list shard := mvals (c_view C).
Definition host_list : list hostspec := mvals (c_hosts C).        (* multiNodeHost.toArray *)

(** * shardRepair (shardimage.go) *)
Definition sr_failed (c : shard) : list replica := failed_replicas P c now.
Definition sr_ok (c : shard) : list replica := ok_replicas P c now.
Definition sr_wait (c : shard) : list replica := waiting_replicas P c now.
Definition n_failed (c : shard) : nat := length (sr_failed c).
Definition n_ok (c : shard) : nat := length (sr_ok c).
Definition n_wait (c : shard) : nat := length (sr_wait c).

Definition sr_quorum (c : shard) : nat := ((n_failed c + n_ok c + n_wait c) / 2 + 1)%nat.
Definition sr_available (c : shard) : bool := bool_decide (sr_quorum c ≤ n_ok c)%nat.
Definition add_required (c : shard) : bool :=
  bool_decide (0 < n_failed c)%nat && bool_decide (n_wait c = 0%nat) && sr_available c.
Definition create_required (c : shard) : bool := bool_decide (0 < n_wait c)%nat.
Definition delete_required (c : shard) (expected : nat) : bool :=
  sr_available c && bool_decide (0 < n_failed c)%nat && bool_decide (expected < n_failed c + n_ok c)%nat.
Definition need_restore (c : shard) : bool := negb (sr_available c || bool_decide (0 < n_wait c)%nat).
(* getShardForRepair keeps the shard unless it has neither failed nor waiting members *)
Definition in_repair (c : shard) : bool :=
  negb (bool_decide (n_failed c = 0%nat) && bool_decide (n_wait c = 0%nat)).

(** * restore *)
(* spec, ok := mnh.Nodehosts[n.Address]; ok && spec.available(tick) && spec.hasLog(n.ShardID, n.ReplicaID) *)
Definition restorable_rep (n : replica) : bool :=
  match c_hosts C !! r_addr n with
  | Some h => host_available P h now && host_has_log h (r_shard n) (r_id n)
  | None => false
  end.
Definition restorable (c : shard) : list replica := filter (λ n, restorable_rep n = true) (sr_failed c).
(* restoreUnavailableShards (needToBeRestored: readyToBeRestored's quorum test) and
   restoreFailed (every other shard: canBeRestored, no quorum test) *)
Definition restore_set (c : shard) : list replica :=
  if need_restore c then
    (if bool_decide (sr_quorum c ≤ n_ok c + length (restorable c))%nat then restorable c else [])
  else restorable c.
Definition has_restore (c : shard) : bool := match restore_set c with [] => false | _ :: _ => true end.
(* restoredShards of maintainShards: the ShardId of every restore request *)
Definition restored_ids : list N := s_id <$> filter (λ c, has_restore c = true) entries.
Definition is_restored (c : shard) : bool := existsb (N.eqb (s_id c)) restored_ids.

(** * replacement host (filter.go, selector.go, getReplacementNode) *)
Definition host_live (h : hostspec) : bool := now - h_tick h <? p_ttl P.       (* liveFilter, gap = nodeHostTTL *)
Definition not_hosting (s : N) (h : hostspec) : bool := bool_decide (s ∉ h_shards h).   (* basicFilter *)
Definition cand_any (s : N) : list hostspec :=
  filter (λ h, host_live h = true ∧ not_hosting s h = true) host_list.
Definition cand_region (s reg : N) : list hostspec := filter (λ h, h_region h = reg) (cand_any s).
Definition region_of (a : N) : N :=
  match c_hosts C !! a with Some h => h_region h | None => unknown_region end.
(* hosts that may be selected when [n] is failedReplicas[0] *)
Definition candidates (n : replica) : list hostspec :=
  match cand_region (r_shard n) (region_of (r_addr n)) with
  | [] => cand_any (r_shard n)
  | l => l
  end.

(** * repair: the if / else-if chain for one element of shardsToRepair *)
Definition repair_action (c : shard) : action :=
  if negb (in_repair c) || is_restored c then ANone else
  match c_defs C !! s_id c with
  | None => AUndefined
  | Some sd =>
    if delete_required c (length (sd_members sd)) then ADelete
    else if create_required c then ACreate sd
    else if add_required c then AAdd
    else ANone
  end.

(** * request shapes *)
Definition members_of (c : shard) : list (N * N) := (λ n, (r_id n, r_addr n)) <$> mvals (s_reps c).

(* getCreateRequest, everything but the instantiated replica *)
Definition create_shape (c : shard) (join restore : bool) (app : N) (q : request) : Prop :=
  is_create q = true ∧ q_shard q = s_id c ∧ q_members q = q_rids q ∧ q_ccid q = 0 ∧
  length (q_rids q) = length (q_addrs q) ∧ zip (q_rids q) (q_addrs q) ≡ₚ members_of c ∧
  q_join q = join ∧ q_restore q = restore ∧ q_app q = app.

Definition restore_group_ok (c : shard) (app : N) (qs : list request) : bool :=
  bool_decide (((λ q, (q_inst q, q_raft q)) <$> qs) ≡ₚ ((λ n, (r_id n, r_addr n)) <$> restore_set c)
               ∧ Forall (create_shape c false true app) qs).

Definition join_req_ok (c : shard) (app : N) (q : request) : bool :=
  bool_decide (create_shape c true false app q ∧
               Exists (λ n, q_inst q = r_id n ∧ q_raft q = r_addr n) (sr_wait c)).

Definition delete_req_ok (c : shard) (q : request) : bool :=
  bool_decide (is_delete q = true ∧ q_shard q = s_id c ∧ q_ccid q = s_cci c ∧
               Exists (λ n, q_members q = [r_id n]) (sr_failed c) ∧
               Exists (λ m, q_raft q = r_addr m) (sr_ok c) ∧
               q_rids q = [] ∧ q_addrs q = [] ∧ q_inst q = 0 ∧ q_join q = false ∧ q_restore q = false ∧ q_app q = 0).

Definition add_req_ok (c : shard) (q : request) : bool :=
  bool_decide (is_add q = true ∧ q_shard q = s_id c ∧ q_ccid q = s_cci c ∧
               length (q_members q) = 1%nat ∧
               Exists (λ m, q_raft q = r_addr m) (sr_ok c) ∧
               Exists (λ n, Exists (λ h, q_addrs q = [h_addr h]) (candidates n)) (sr_failed c) ∧
               q_rids q = [] ∧ q_inst q = 0 ∧ q_join q = false ∧ q_restore q = false ∧ q_app q = 0).

(* the requests one view entry may contribute to a batch *)
Definition group_allowed (c : shard) (qs : list request) : bool :=
  if has_restore c then
    match c_defs C !! s_id c with
    | Some sd => restore_group_ok c (sd_app sd) qs
    | None => false                                   (* getAppName panics *)
    end
  else
    match repair_action c with
    | ANone => bool_decide (qs = [])
    | ADelete => match qs with [q] => delete_req_ok c q | _ => false end
    | ACreate sd => match qs with [q] => join_req_ok c (sd_app sd) q | _ => false end
    | AAdd => match qs with [q] => add_req_ok c q | _ => false end
    | AUndefined => false
    end.

(** * the batch *)
Definition kills : list request := kill_req <$> c_kill C.

(* segment of a non-KILL request: 0 = restoreUnavailableShards, 1 = restoreFailed, 2 = repair *)
Definition seg (q : request) : N :=
  if q_restore q then
    (if existsb (λ c, bool_decide (s_id c = q_shard q) && need_restore c) entries then 0 else 1)
  else 2.

Definition group_of (c : shard) (pre : list request) : list request := filter (λ q, q_shard q = s_id c) pre.

(* the batch before validateNodeHostRequest *)
Definition pre_allowed (b : list request) : bool :=
  let npre := (length b - length kills)%nat in
  let pre := take npre b in
  bool_decide (drop npre b = kills)
  && forallb (λ q, negb (is_kill q)) pre
  && bool_decide (Forall (λ q, q_shard q ∈ (s_id <$> entries)) pre)
  && nondecr (seg <$> pre)
  && bool_decide (NoDup (squash (q_shard <$> pre)))
  && forallb (λ c, group_allowed c (group_of c pre)) entries.

(** * panics and errors *)
(* restore(): getAppName panics for a shard with restore requests and no definition *)
Definition restore_crash : bool :=
  existsb (λ c, has_restore c && bool_decide (c_defs C !! s_id c = None)) entries.
Definition crash_entry (c : shard) : bool := match repair_action c with AUndefined => true | _ => false end.
(* getRepairAddRequest returns errNotEnoughNodeHost when failedReplicas[0] may have no candidate *)
Definition err_entry (c : shard) : bool :=
  match repair_action c with
  | AAdd => existsb (λ n, bool_decide (candidates n = [])) (sr_failed c)
  | _ => false
  end.
(* ... and no choice of failedReplicas[0] avoids it *)
Definition err_forced (c : shard) : bool :=
  match repair_action c with
  | AAdd => forallb (λ n, bool_decide (candidates n = [])) (sr_failed c)
  | _ => false
  end.

(* some allowed request of this entry would fail validateNodeHostRequest *)
Definition create_may_invalid (c : shard) (app : N) (insts : list replica) : bool :=
  (app =? 0) || existsb (λ m, (m.1 =? 0) || (m.2 =? 0)) (members_of c)
  || existsb (λ n, (r_id n =? 0) || (r_addr n =? 0)) insts.
Definition entry_may_invalid (c : shard) : bool :=
  if has_restore c then
    match c_defs C !! s_id c with
    | Some sd => create_may_invalid c (sd_app sd) (restore_set c)
    | None => false
    end
  else
    match repair_action c with
    | ADelete => (s_id c =? 0) || existsb (λ n, r_id n =? 0) (sr_failed c) || existsb (λ m, r_addr m =? 0) (sr_ok c)
    | ACreate sd => create_may_invalid c (sd_app sd) (sr_wait c)
    | AAdd => true               (* the random source may return id 0 *)
    | _ => false
    end.
Definition may_invalid : bool :=
  existsb (λ q, negb (valid_req q)) kills || existsb entry_may_invalid entries.

Definition allowed (o : outcome) : bool :=
  match o with
  | OBatch b => pre_allowed b && forallb valid_req b
  | OError => negb restore_crash && existsb err_entry entries
  | OCrash => restore_crash || existsb crash_entry entries
              || (negb (existsb err_forced entries) && may_invalid)
  end.
Definition allowed_batch (b : list request) : bool := allowed (OBatch b).

(** * one canonical outcome (first candidates in trie order; the new replica id for shard
      [s] is [idf s]) *)
Definition create_req (c : shard) (n : replica) (join restore : bool) (app : N) : request :=
  let ms := members_of c in
  mkReq RCreate (s_id c) (ms.*1) 0 (ms.*1) (ms.*2) (r_id n) (r_addr n) join restore app.

(* the restore requests of one entry (none when it is not restored or undefined) *)
Definition canon_restore (c : shard) : list request :=
  match c_defs C !! s_id c with
  | Some sd => (λ n, create_req c n false true (sd_app sd)) <$> restore_set c
  | None => []
  end.

(* result of one repair step *)
Inductive rstep_res := RReqs (qs : list request) | RErr | RPanic.
Definition canon_repair (c : shard) (id : N) : rstep_res :=
  if has_restore c then RReqs [] else
  match repair_action c with
  | ANone => RReqs []
  | AUndefined => RPanic
  | ADelete =>
    match sr_failed c, sr_ok c with
    | n :: _, m :: _ => RReqs [mkReq RDelete (s_id c) [r_id n] (s_cci c) [] [] 0 (r_addr m) false false 0]
    | _, _ => RPanic
    end
  | ACreate sd =>
    match sr_wait c with
    | n :: _ => RReqs [create_req c n true false (sd_app sd)]
    | [] => RPanic
    end
  | AAdd =>
    match sr_failed c, sr_ok c with
    | n :: _, m :: _ =>
      match candidates n with
      | h :: _ => RReqs [mkReq RAdd (s_id c) [id] (s_cci c) [] [h_addr h] 0 (r_addr m) false false 0]
      | [] => RErr
      end
    | _, _ => RPanic
    end
  end.
Definition is_rpanic (r : rstep_res) : bool := match r with RPanic => true | _ => false end.
Definition is_rerr (r : rstep_res) : bool := match r with RErr => true | _ => false end.
Definition reqs_of (r : rstep_res) : list request := match r with RReqs qs => qs | _ => [] end.

Definition canon (idf : N → N) : outcome :=
  if restore_crash then OCrash else
  let rs := (λ c, canon_repair c (idf (s_id c))) <$> entries in
  if existsb is_rpanic rs then OCrash
  else if existsb is_rerr rs then OError
  else
    let b := concat ((λ c, if need_restore c then canon_restore c else []) <$> entries)
             ++ concat ((λ c, if need_restore c then [] else canon_restore c) <$> entries)
             ++ concat (reqs_of <$> rs) ++ kills in
    if forallb valid_req b then OBatch b else OCrash.
End Sched.
