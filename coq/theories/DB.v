(** DB: executable model of the replicated Drummer DB (db.go, shardimage.go,
    nodehostimage.go, the query side of server.go).

    Style: std++ ([gmap] for Go maps, lists for Go slices).  Strings (addresses,
    regions, application names, KV keys and values) are [N]; the harness keeps a
    bijection with the Go strings, the empty string is 0.  Logical time, versions,
    ids are [N] without wrap-around (DESIGN.md 3.1, assumption A-wrap).

    Outcomes of an update:
      [SOk d v]    state d, result value v
      [SPanic d]   the launch-deadline fail-stop: [d_failed d = true]; the replica
                   keeps answering every call with a panic
      [SDead]      a Go assertion / consistency panic: the process is gone
                   (fail-stop; later behaviour of that replica is not observed).

    The model describes the tree WITH the repairs recorded in known_findings.json
    (status fixed): kill list replaced per reporting address (C11), deadline
    cleared by shard identity (C09), SHARD lookup sorted by id (C03). *)
From stdpp Require Import gmap list numbers sorting.
Local Open Scope N_scope.

Record params := mkParams { p_ttl : N; p_step : N; p_ldt : N }.

(** * Data *)
Record replica := mkReplica { r_shard : N; r_id : N; r_addr : N; r_leader : bool; r_tick : N; r_first : N }.
Record shard := mkShard { s_id : N; s_cci : N; s_reps : gmap N replica }.
Record kill_entry := mkKill { k_shard : N; k_replica : N; k_addr : N }.
Record hostspec := mkHost { h_addr : N; h_rpc : N; h_region : N; h_tick : N; h_plog : list (N * N); h_shards : gset N }.
Record shard_info := mkSI { si_shard : N; si_replica : N; si_leader : bool; si_members : gmap N N;
                            si_cci : N; si_incomplete : bool; si_pending : bool }.
Record report := mkReport { rp_addr : N; rp_infos : list shard_info; rp_shard_ids : list N; rp_last_tick : N;
                            rp_plog_incl : bool; rp_plog : list (N * N); rp_region : N; rp_rpc : N }.
Inductive rtype := RCreate | RDelete | RAdd | RKill.
Record request := mkReq { q_type : rtype; q_shard : N; q_members : list N; q_ccid : N; q_rids : list N; q_addrs : list N;
                          q_inst : N; q_raft : N; q_join : bool; q_restore : bool; q_app : N }.
Record kvrec := mkKVR { kv_key : N; kv_val : N; kv_inst : N; kv_tick : N; kv_old : N; kv_fin : bool }.
Record shard_def := mkSD { sd_id : N; sd_members : list N; sd_app : N }.

Record db := mkDB {
  d_tick : N; d_deadline : N; d_failed : bool;
  d_shards : gmap N shard_def;
  d_kv : gmap N kvrec;
  d_view : gmap N shard;
  d_kill : list kill_entry;
  d_hosts : gmap N hostspec;
  d_info : gmap N report;
  d_requests : gmap N (list request);
  d_outgoing : gmap N (list request) }.

Definition db_init : db := mkDB 0 0 false ∅ ∅ ∅ [] ∅ ∅ ∅ ∅.

(** reserved keys / values: the harness maps these numbers to the Go strings *)
Definition key_deployment : N := 1.
Definition key_launched : N := 2.
Definition key_bootstrapped : N := 3.
Definition key_election : N := 4.
Definition key_regions : N := 5.
Definition val_true : N := 1.

Inductive cmd :=
| CTick
| CKV (k : kvrec)
| CShard (ctype : N) (sd : shard_def)       (* pb.Change: type (0 = CREATE), shard id, members, app name *)
| CReport (r : report)
| CRequests (qs : list request)
| CUnknown.                                  (* an Update with an unknown type value *)

Inductive sres := SOk (d : db) (v : N) | SPanic (d : db) | SDead.

(** field updates *)
Definition set_tick (d : db) (t : N) : db := mkDB t (d_deadline d) (d_failed d) (d_shards d) (d_kv d) (d_view d) (d_kill d) (d_hosts d) (d_info d) (d_requests d) (d_outgoing d).
Definition set_deadline (d : db) (x : N) : db := mkDB (d_tick d) x (d_failed d) (d_shards d) (d_kv d) (d_view d) (d_kill d) (d_hosts d) (d_info d) (d_requests d) (d_outgoing d).
Definition set_failed (d : db) (x : bool) : db := mkDB (d_tick d) (d_deadline d) x (d_shards d) (d_kv d) (d_view d) (d_kill d) (d_hosts d) (d_info d) (d_requests d) (d_outgoing d).
Definition set_shards (d : db) x : db := mkDB (d_tick d) (d_deadline d) (d_failed d) x (d_kv d) (d_view d) (d_kill d) (d_hosts d) (d_info d) (d_requests d) (d_outgoing d).
Definition set_kv (d : db) x : db := mkDB (d_tick d) (d_deadline d) (d_failed d) (d_shards d) x (d_view d) (d_kill d) (d_hosts d) (d_info d) (d_requests d) (d_outgoing d).
Definition set_view (d : db) x : db := mkDB (d_tick d) (d_deadline d) (d_failed d) (d_shards d) (d_kv d) x (d_kill d) (d_hosts d) (d_info d) (d_requests d) (d_outgoing d).
Definition set_kill (d : db) x : db := mkDB (d_tick d) (d_deadline d) (d_failed d) (d_shards d) (d_kv d) (d_view d) x (d_hosts d) (d_info d) (d_requests d) (d_outgoing d).
Definition set_hosts (d : db) x : db := mkDB (d_tick d) (d_deadline d) (d_failed d) (d_shards d) (d_kv d) (d_view d) (d_kill d) x (d_info d) (d_requests d) (d_outgoing d).
Definition set_info (d : db) x : db := mkDB (d_tick d) (d_deadline d) (d_failed d) (d_shards d) (d_kv d) (d_view d) (d_kill d) (d_hosts d) x (d_requests d) (d_outgoing d).
Definition set_requests (d : db) x : db := mkDB (d_tick d) (d_deadline d) (d_failed d) (d_shards d) (d_kv d) (d_view d) (d_kill d) (d_hosts d) (d_info d) x (d_outgoing d).
Definition set_outgoing (d : db) x : db := mkDB (d_tick d) (d_deadline d) (d_failed d) (d_shards d) (d_kv d) (d_view d) (d_kill d) (d_hosts d) (d_info d) (d_requests d) x.

Definition mvals {A} (m : gmap N A) : list A := (map_to_list m).*2.

(** * shardimage.go: classification *)
Section Classes.
Variable P : params.

(* EntityFailed(lastTick, currentTick): currentTick - lastTick > ttl.  Unsigned
   subtraction; the model uses truncated subtraction and C05_no_underflow shows
   last <= now on every reachable state. *)
Definition entity_failed (last now : N) : bool := p_ttl P <? now - last.

Definition replica_failed (n : replica) (now : N) : bool :=
  if r_tick n =? 0 then r_first n =? 0 else entity_failed (r_tick n) now.
Definition replica_waiting (n : replica) (now : N) : bool :=
  (r_tick n =? 0) && negb (replica_failed n now).
Definition replica_ok (n : replica) (now : N) : bool :=
  negb (replica_failed n now) && negb (replica_waiting n now).

Definition ok_replicas (c : shard) (now : N) : list replica := filter (λ n, replica_ok n now = true) (mvals (s_reps c)).
Definition failed_replicas (c : shard) (now : N) : list replica := filter (λ n, replica_failed n now = true) (mvals (s_reps c)).
Definition waiting_replicas (c : shard) (now : N) : list replica := filter (λ n, replica_waiting n now = true) (mvals (s_reps c)).

Definition quorum_of (n : nat) : nat := (n / 2 + 1)%nat.
Definition shard_available (c : shard) (now : N) : bool :=
  bool_decide (quorum_of (size (s_reps c)) ≤ length (ok_replicas c now))%nat.

Definition host_available (h : hostspec) (now : N) : bool := negb (entity_failed (h_tick h) now).
Definition host_has_log (h : hostspec) (s r : N) : bool := bool_decide ((s, r) ∈ h_plog h).
End Classes.

(** * shardimage.go: multiShard.update *)
Definition kill_required (c : shard) (ci : shard_info) : bool :=
  if s_cci c <=? si_cci ci then false
  else match s_reps c !! si_replica ci with Some _ => false | None => true end.

Definition new_replica (sid nid a tick : N) : replica := mkReplica sid nid a false 0 tick.

(* getShard *)
Definition get_shard (ci : shard_info) (tick : N) : shard :=
  let reps := map_imap (λ nid a, Some (new_replica (si_shard ci) nid a tick)) (si_members ci) in
  let reps' := match reps !! si_replica ci with
               | Some n => <[si_replica ci := mkReplica (r_shard n) (r_id n) (r_addr n) (si_leader ci) (r_tick n) (r_first n)]> reps
               | None => reps
               end in
  mkShard (si_shard ci) (si_cci ci) reps'.

Definition addrs_of (reps : gmap N replica) : list N := r_addr <$> mvals reps.

(* syncShard: None = one of the four consistency panics; Some (c', rejected) *)
Definition sync_shard (c : shard) (ci : shard_info) (tick : N) : option (shard * bool) :=
  if si_cci ci <? s_cci c then Some (c, true)
  else if (s_cci c =? si_cci ci) &&
          (negb (bool_decide (size (s_reps c) = size (si_members ci))) ||
           negb (bool_decide (map_Forall (λ nid _, is_Some (s_reps c !! nid)) (si_members ci))))
  then None
  else
    let kept := filter (λ kv, is_Some (si_members ci !! kv.1)) (s_reps c) in
    if negb (bool_decide (map_Forall (λ nid n, si_members ci !! nid = Some (r_addr n)) kept)) then None
    else
      let added := map_imap (λ nid a, match s_reps c !! nid with
                                      | Some _ => None
                                      | None => Some (new_replica (si_shard ci) nid a tick)
                                      end) (si_members ci) in
      let reps' := kept ∪ added in
      if bool_decide (NoDup (addrs_of reps')) then Some (mkShard (s_id c) (si_cci ci) reps', false)
      else None.

(* one ShardInfo entry of doUpdate; state = (view, toKill); None = panic *)
Definition update_entry (tick : N) (st : gmap N shard * list shard_info) (ci : shard_info)
  : option (gmap N shard * list shard_info) :=
  let '(view, tokill) := st in
  let cid := si_shard ci in
  let partial_case :=
    match view !! cid with
    | Some ec => if negb (bool_decide (size (s_reps ec) = 0%nat)) && (0 <? s_cci ec) && kill_required ec ci
                 then Some (view, tokill ++ [ci]) else Some (view, tokill)
    | None => Some (view, tokill)
    end in
  if si_pending ci then partial_case
  else if negb (si_incomplete ci) then
    match view !! cid with
    | None => Some (<[cid := get_shard ci tick]> view, tokill)
    | Some ec =>
      match sync_shard ec ci tick with
      | None => None
      | Some (ec', rejected) =>
        let view' := <[cid := ec']> view in
        if rejected && kill_required ec' ci then Some (view', tokill ++ [ci]) else Some (view', tokill)
      end
    end
  else partial_case.

Fixpoint update_entries (tick : N) (st : gmap N shard * list shard_info) (cis : list shard_info)
  : option (gmap N shard * list shard_info) :=
  match cis with
  | [] => Some st
  | ci :: cis' => match update_entry tick st ci with
                  | None => None
                  | Some st' => update_entries tick st' cis'
                  end
  end.

(* updateNodeTick *)
Definition touch_replica (tick : N) (view : gmap N shard) (ci : shard_info) : gmap N shard :=
  match view !! si_shard ci with
  | Some ec => match s_reps ec !! si_replica ci with
               | Some n => <[si_shard ci := mkShard (s_id ec) (s_cci ec)
                              (<[si_replica ci := mkReplica (r_shard n) (r_id n) (r_addr n) (r_leader n) tick (r_first n)]> (s_reps ec))]> view
               | None => view
               end
  | None => view
  end.
Definition update_node_tick (tick : N) (view : gmap N shard) (cis : list shard_info) : gmap N shard :=
  foldl (touch_replica tick) view cis.

(* syncLeaderInfo *)
Definition set_leader (n : replica) (b : bool) : replica := mkReplica (r_shard n) (r_id n) (r_addr n) b (r_tick n) (r_first n).
Definition leader_entry (view : gmap N shard) (ci : shard_info) : gmap N shard :=
  match view !! si_shard ci with
  | None => view
  | Some c =>
    if si_cci ci <? s_cci c then view else
    match s_reps c !! si_replica ci with
    | None => view
    | Some n =>
      if negb (si_leader ci) && r_leader n then
        <[si_shard ci := mkShard (s_id c) (s_cci c) (<[si_replica ci := set_leader n false]> (s_reps c))]> view
      else if si_leader ci && negb (r_leader n) then
        let cleared := (λ x, set_leader x false) <$> s_reps c in
        <[si_shard ci := mkShard (s_id c) (s_cci c) (<[si_replica ci := set_leader n true]> cleared)]> view
      else view
    end
  end.
Definition sync_leader_info (view : gmap N shard) (cis : list shard_info) : gmap N shard :=
  foldl leader_entry view cis.

(* multiShard.update; with the C11 repair: the entries recorded for the reporting
   address are replaced by the strays found in this report *)
Definition view_update (view : gmap N shard) (kill : list kill_entry) (r : report) (tick : N)
  : option (gmap N shard * list kill_entry) :=
  match update_entries tick (view, []) (rp_infos r) with
  | None => None
  | Some (view1, tokill) =>
    let view2 := update_node_tick tick view1 (rp_infos r) in
    let kill' := filter (λ k, k_addr k ≠ rp_addr r) kill ++
                 ((λ ci, mkKill (si_shard ci) (si_replica ci) (rp_addr r)) <$> tokill) in
    Some (sync_leader_info view2 (rp_infos r), kill')
  end.

(** * nodehostimage.go *)
Definition host_update (hosts : gmap N hostspec) (r : report) (tick : N) : gmap N hostspec :=
  let shards : gset N := list_to_set (rp_shard_ids r) in
  match hosts !! rp_addr r with
  | Some h => <[rp_addr r := mkHost (h_addr h) (h_rpc h) (rp_region r) tick
                               (if rp_plog_incl r then rp_plog r else h_plog h) shards]> hosts
  | None => <[rp_addr r := mkHost (rp_addr r) (rp_rpc r) (rp_region r) tick
                             (if rp_plog_incl r then rp_plog r else []) shards]> hosts
  end.

(* syncShardInfo: every host named by a replica of the view gets that shard added *)
Definition shards_on (view : gmap N shard) (a : N) : gset N :=
  dom (filter (λ kv, a ∈ addrs_of (s_reps kv.2)) view).
Definition sync_shard_info (hosts : gmap N hostspec) (view : gmap N shard) : gmap N hostspec :=
  (λ h, mkHost (h_addr h) (h_rpc h) (h_region h) (h_tick h) (h_plog h) (h_shards h ∪ shards_on view (h_addr h))) <$> hosts.

(** * db.go *)
Definition shard_launched (c : shard) : bool := bool_decide (map_Forall (λ _ n, 0 < r_tick n) (s_reps c)).
(* getLaunchedShards + onUpdatedShardInfo, with the C09 repair: every DEFINED shard
   id must have a fully reporting view *)
Definition all_launched (d : db) : bool :=
  bool_decide (map_Forall (λ sid _, from_option shard_launched false (d_view d !! sid) = true) (d_shards d)).
Definition on_updated_shard_info (d : db) : db :=
  if (0 <? d_deadline d) && all_launched d then set_deadline d 0 else d.

Definition kv_update (d : db) (kv : kvrec) : option (db * N) :=   (* None = panic (empty key/value) *)
  if (kv_key kv =? 0) || (kv_val kv =? 0) then None else
  match d_kv d !! kv_key kv with
  | None => Some (set_kv d (<[kv_key kv := kv]> (d_kv d)), 0)
  | Some old =>
    if kv_fin old then Some (d, 1)
    else if (kv_inst old =? kv_inst kv) || (kv_inst old =? kv_old kv)
         then Some (set_kv d (<[kv_key kv := kv]> (d_kv d)), 0)
         else Some (d, 2)
  end.

Definition is_launched (d : db) : bool := bool_decide (is_Some (d_kv d !! key_launched)).
Definition is_bootstrapped (d : db) : bool := bool_decide (is_Some (d_kv d !! key_bootstrapped)).

Definition is_launch_req (q : request) : bool :=
  match q_type q with RCreate => negb (q_join q) && negb (q_restore q) | _ => false end.

(* group requests by address, order preserved: Requests[addr] := sub-list *)
Definition addrs_in (qs : list request) : list N := remove_dups (q_raft <$> qs).
Definition put_requests (m : gmap N (list request)) (qs : list request) : gmap N (list request) :=
  foldl (λ m a, <[a := filter (λ q, q_raft q = a) qs]> m) m (addrs_in qs).

Definition try_create_shard (d : db) (ctype : N) (sd : shard_def) : option (db * N) :=
  if negb (ctype =? 0) then None
  else if bool_decide (sd_members sd = []) then None
  else if sd_app sd =? 0 then None
  else if is_bootstrapped d then Some (d, 2)
  else match d_shards d !! sd_id sd with
       | Some _ => Some (d, 1)
       | None => Some (set_shards d (<[sd_id sd := sd]> (d_shards d)), 0)
       end.

Section Step.
Variable P : params.

Definition apply_tick (d : db) : sres :=
  let d1 := set_tick d (d_tick d + p_step P) in
  if (0 <? d_deadline d1) && (d_deadline d1 <? d_tick d1) then SPanic (set_failed d1 true)
  else SOk d1 (d_tick d1).

(* the report as stored: LastTick stamped with the DB's logical time *)
Definition stamp (d : db) (r0 : report) : report :=
  mkReport (rp_addr r0) (rp_infos r0) (rp_shard_ids r0) (d_tick d) (rp_plog_incl r0) (rp_plog r0) (rp_region r0) (rp_rpc r0).

(* mailbox move: Requests[a] -> Outgoing[a] *)
Definition pickup (d : db) (a : N) : db :=
  match d_requests d !! a with
  | Some qs => set_outgoing (set_requests d (delete a (d_requests d))) (<[a := qs]> (d_outgoing d))
  | None => d
  end.
Definition pickup_count (d : db) (a : N) : N :=
  match d_requests d !! a with Some qs => N.of_nat (length qs) | None => 0 end.

(* state after a report whose view update succeeded with (view', kill') *)
Definition report_result (d : db) (r : report) (view' : gmap N shard) (kill' : list kill_entry) : db :=
  let a := rp_addr r in
  let d1 := set_info (set_outgoing d (delete a (d_outgoing d))) (<[a := r]> (d_info d)) in
  let d2 := set_kill (set_view d1 view') kill' in
  let d3 := set_hosts d2 (sync_shard_info (host_update (d_hosts d2) r (d_tick d)) view') in
  on_updated_shard_info (pickup d3 a).

Definition apply_report (d : db) (r0 : report) : sres :=
  let r := stamp d r0 in
  match view_update (d_view d) (d_kill d) r (d_tick d) with
  | None => SDead
  | Some (view', kill') => SOk (report_result d r view' kill') (pickup_count d (rp_addr r))
  end.

Definition apply_requests (d : db) (qs : list request) : sres :=
  let nlaunch := length (filter (λ q, is_launch_req q = true) qs) in
  if bool_decide (0 < nlaunch)%nat && negb (bool_decide (nlaunch = length qs)) then SDead
  else
    let launch := bool_decide (0 < nlaunch)%nat in
    if is_launched d && launch then SOk d 0
    else
      let d1 := set_requests d (put_requests (d_requests d) qs) in
      if launch then
        match kv_update d1 (mkKVR key_launched val_true 0 0 0 true) with
        | Some (d2, 0) => SOk (set_deadline d2 (d_tick d2 + p_ldt P * p_step P)) (N.of_nat (length qs))
        | _ => SDead
        end
      else SOk d1 (N.of_nat (length qs)).

Definition db_step (d : db) (c : cmd) : sres :=
  if d_failed d then SPanic d else
  match c with
  | CTick => apply_tick d
  | CKV kv => match kv_update d kv with Some (d', v) => SOk d' v | None => SDead end
  | CShard t sd => match try_create_shard d t sd with Some (d', v) => SOk d' v | None => SDead end
  | CReport r => apply_report d r
  | CRequests qs => apply_requests d qs
  | CUnknown => SDead
  end.

(** run: the list of outcomes of a command list; after [SDead] nothing is observed *)
Inductive rstate := Live (d : db) | Dead.
Definition rstep (s : rstate) (c : cmd) : rstate * option N :=   (* result value, None = panic *)
  match s with
  | Dead => (Dead, None)
  | Live d => match db_step d c with
              | SOk d' v => (Live d', Some v)
              | SPanic d' => (Live d', None)
              | SDead => (Dead, None)
              end
  end.
Definition run_from (s : rstate) (cs : list cmd) : rstate := foldl (λ s c, (rstep s c).1) s cs.
Definition run (cs : list cmd) : rstate := run_from (Live db_init) cs.

(** * Lookups (db.go Lookup, server.go toShardState); None = panic *)
Record shard_state := mkSS { ss_id : N; ss_leader : N; ss_reps : list (N * N); ss_rpcs : list (N * N);
                             ss_unavailable : bool; ss_cci : N }.

Definition to_shard_state (d : db) (sid : N) : option shard_state :=
  match d_view d !! sid with
  | None => None
  | Some c =>
    let reps := (λ kv, (kv.1, r_addr kv.2)) <$> map_to_list (s_reps c) in
    let rpcs := (λ kv, (kv.1, match d_hosts d !! r_addr kv.2 with Some h => h_rpc h | None => 0 end)) <$> map_to_list (s_reps c) in
    (* the leader id is read from the replica's own id field; with several flagged
       replicas Go's map order would decide - C04_one_leader excludes that *)
    let leader := match filter (λ n, r_leader n = true) (mvals (s_reps c)) with n :: _ => r_id n | [] => 0 end in
    Some (mkSS (s_id c) leader reps rpcs (negb (shard_available P c (d_tick d))) (s_cci c))
  end.

(* SHARD_STATES: the whole answer is empty as soon as one id is unknown *)
Definition lookup_states (d : db) (ids : list N) : option (list shard_state) :=
  mapM (to_shard_state d) ids.

Definition lookup_shards (d : db) : list shard_def := mvals (d_shards d).
Definition lookup_kv (d : db) (k : N) : option kvrec := d_kv d !! k.
Definition lookup_requests (d : db) (a : N) : list request := default [] (d_outgoing d !! a).
End Step.
