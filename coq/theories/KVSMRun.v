(** KVSMRun: executable agreement predicates evaluated (vm_compute) by the
    generated cases files of the C15 correspondence check.

    A case is a script (list of [op]) for one kind of machine plus the list of
    observations the real Go machines produced, one per operation:
    lookups as byte strings, GetHash results as *class numbers* (first
    occurrence numbering of the distinct hash values seen in the case), Open's
    returned index, a Go panic.  The model side numbers its hash pre-images
    the same way, so the lists are equal iff lookups agree and the hash
    equality pattern of the implementation is the pre-image equality pattern
    of the model. *)
From Drummer.Model Require Import Base KVCodec KVSM.

(* [n] copies of byte [b]: long keys and values (4 KB .. MBs) are written run-length compressed in the cases files *)
Definition brep (n b : N) : bytes := repeat b (N.to_nat n).

Inductive xobs := XNone | XVal (v : bytes) | XCls (c : N) | XIdx (i : N) | XPanic.

Definition xobs_eqb (a b : xobs) : bool :=
  match a, b with
  | XNone, XNone => true
  | XVal v, XVal w => beqb v w
  | XCls c, XCls d => c =? d
  | XIdx i, XIdx j => i =? j
  | XPanic, XPanic => true
  | _, _ => false
  end.

Section Run.
Variable M : machine.

(* class of pre-image p among the representatives seen so far (appended when new) *)
Fixpoint cls_of (p : m_pre M) (reps : list (m_pre M)) (i : N) : N * list (m_pre M) :=
  match reps with
  | [] => (i, [p])
  | q :: rest => if m_pre_eqb M p q then (i, reps)
                 else let '(c, rest') := cls_of p rest (i + 1) in (c, q :: rest')
  end.

(* the model's observations; stops at the first fail-stop *)
Fixpoint obs_run (s : sys M) (reps : list (m_pre M)) (ops : list op) : list xobs :=
  match ops with
  | [] => []
  | o :: rest =>
    match step M s o with
    | None => [XPanic]
    | Some (s', mo) =>
      match mo with
      | MNone _ => XNone :: obs_run s' reps rest
      | MVal _ v => XVal v :: obs_run s' reps rest
      | MPre _ p => let '(c, reps') := cls_of p reps 0 in XCls c :: obs_run s' reps' rest
      | MIdx _ i => XIdx i :: obs_run s' reps rest
      end
    end
  end.
End Run.

(* the same for scripts with context / image slots *)
Section RunS.
Variable M : machine.
Fixpoint obs_run_s (x : sst M) (reps : list (m_pre M)) (ops : list sop) : list xobs :=
  match ops with
  | [] => []
  | o :: rest =>
    match sstep M x o with
    | None => [XPanic]
    | Some (x', mo) =>
      match mo with
      | MNone _ => XNone :: obs_run_s x' reps rest
      | MVal _ v => XVal v :: obs_run_s x' reps rest
      | MPre _ p => let '(c, reps') := cls_of M p reps 0 in XCls c :: obs_run_s x' reps' rest
      | MIdx _ i => XIdx i :: obs_run_s x' reps rest
      end
    end
  end.
End RunS.

Definition machine_of (mid sm : N) : machine :=
  if mid =? 0 then kvtest_m sm else if mid =? 1 then ckv_m sm else disk_m sm.

Definition model_obs (mid sm : N) (ops : list op) : list xobs :=
  obs_run (machine_of mid sm) (sys0 (machine_of mid sm)) [] ops.

(* one generated case: model observations = implementation observations *)
Definition kcase (mid sm : N) (ops : list op) (obs : list xobs) : bool :=
  list_eqb xobs_eqb (model_obs mid sm ops) obs.

Definition model_obs_s (mid sm : N) (ops : list sop) : list xobs :=
  obs_run_s (machine_of mid sm) (sst0 (machine_of mid sm)) [] ops.
Definition scase (mid sm : N) (ops : list sop) (obs : list xobs) : bool :=
  list_eqb xobs_eqb (model_obs_s mid sm ops) obs.

(* first disagreeing position (diagnostics only) *)
Fixpoint first_diff (i : N) (a b : list xobs) : option N :=
  match a, b with
  | [], [] => None
  | x :: a', y :: b' => if xobs_eqb x y then first_diff (i + 1) a' b' else Some i
  | _, _ => Some i
  end.
Definition kdiff (mid sm : N) (ops : list op) (obs : list xobs) : option N :=
  first_diff 0 (model_obs mid sm ops) obs.

Definition sdiff (mid sm : N) (ops : list sop) (obs : list xobs) : option N :=
  first_diff 0 (model_obs_s mid sm ops) obs.

(* the UTF-8 coercion alone: used to cross-check the python copy of the signature classifier *)
Definition ucase (s expect : bytes) (valid : bool) : bool :=
  beqb (coerce s) expect && Bool.eqb (utf8_valid s) valid.
