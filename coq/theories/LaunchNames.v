(** LaunchNames: vocabulary for "region names are opaque" (property C08, round 3 of the seeded-change review).

    In the model strings are numbers and region names are compared with [N.eqb] only, i.e. by exact
    string equality: the Go code compares [rf.region == v.Region] (filter.go) and uses the names as
    map keys (scheduler.go, server.go).  No name has a meaning of its own at launch: not the name
    [settings.Soft.UnknownRegionName] ("UNKNOWN", which only the REPAIR path uses, as the region of a
    NodeHost that is gone), not the empty name, and names that are equal after case folding, trimming
    or Unicode normalisation are DIFFERENT regions.  A re-spelling of the region names is a function
    [f] on names, applied to the regions specification and to what the NodeHosts report.

    Definitions only; proofs in proofs/LaunchNamesProofs.v. *)
From stdpp Require Import gmap.
From Drummer.Model Require Import Base DB Launch.
Local Open Scope N_scope.

(** the NodeHost reports region [f name] instead of [name]; nothing else changes *)
Definition rename_host (f : N -> N) (h : hostspec) : hostspec :=
  mkHost (h_addr h) (h_rpc h) (f (h_region h)) (h_tick h) (h_plog h) (h_shards h).

(** the specification lists region [f name] instead of [name]; the counts stay *)
Definition rename_spec (f : N -> N) (r : regions) : regions :=
  mkRegions (map f (rg_region r)) (rg_count r).

(** [f] keeps the names that occur in the specification or in the fleet apart *)
Definition names_of (fleet : list hostspec) (regs : option regions) : list N :=
  match regs with None => [] | Some r => rg_region r end ++ map h_region fleet.

Definition keeps_apart (f : N -> N) (names : list N) : Prop :=
  forall x y, In x names -> In y names -> f x = f y -> x = y.
