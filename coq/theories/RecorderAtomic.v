(** RecorderAtomic: the recorder small-step system (Recorder.v) composed with a service that is
    an ATOMIC REGISTER: every operation takes effect at one instant while its rpc is in flight,
    a successful reply reports what happened at that instant, an error reply (or a client side
    timeout) says nothing: the operation may or may not have taken effect, and a write reported
    as failed may still take effect at ANY later time (or never).

    Executable model only (no proofs).  Used by C07_accepts_linearizable.

      AL l        a step of the recorder (Recorder.step); an rpc can only return [ROk v] after the
                  operation took effect, and a read returns the value it saw
      AEffect p   the operation of process p takes effect at the register
      ALate p     the write of process p, reported failed before it took effect, lands now
                  (possibly long after the failure was recorded) *)
From Drummer.Model Require Import Base Jepsen Recorder.
Open Scope N_scope.

Record astate := mkA {
  a_s    : state;             (* the recorder *)
  a_reg  : N;                 (* contents of the register; [nilv] = never written *)
  a_eff  : N -> option N;     (* per process: its current operation took effect; value read / written *)
  a_late : N -> option N      (* per process: value of a write reported failed that has not (yet) taken effect *)
}.

Inductive alabel :=
| AL (l : label)
| AEffect (p : N)
| ALate (p : N).

Definition ainit (n : N) : astate := mkA (init n) nilv (fun _ => None) (fun _ => None).

Definition oupd {A} (f : N -> A) (p : N) (x : A) : N -> A := fun q => if q =? p then x else f q.

Definition astep (a : astate) (l : alabel) : option astate :=
  match l with
  | AEffect p =>
    match pc (procs (a_s a) p), a_eff a p with
    | CInRpc OpRead, None => Some (mkA (a_s a) (a_reg a) (oupd (a_eff a) p (Some (a_reg a))) (a_late a))
    | CInRpc (OpWrite v), None => Some (mkA (a_s a) v (oupd (a_eff a) p (Some v)) (a_late a))
    | _, _ => None
    end
  | ALate p =>
    match a_late a p, a_eff a p with
    | Some v, None => Some (mkA (a_s a) v (oupd (a_eff a) p (Some v)) (oupd (a_late a) p None))
    | _, _ => None
    end
  | AL l =>
    match step (a_s a) l with
    | None => None
    | Some s' =>
      match l with
      | LRpcReturn p (ROk v) =>
        match pc (procs (a_s a) p), a_eff a p with
        | CInRpc OpRead, Some x => if v =? x then Some (mkA s' (a_reg a) (a_eff a) (a_late a)) else None
        | CInRpc (OpWrite _), Some _ => Some (mkA s' (a_reg a) (a_eff a) (a_late a))
        | _, _ => None
        end
      | LRpcReturn p RErr =>
        match pc (procs (a_s a) p), a_eff a p with
        | CInRpc (OpWrite w), None => Some (mkA s' (a_reg a) (a_eff a) (oupd (a_late a) p (Some w)))
        | _, _ => Some (mkA s' (a_reg a) (a_eff a) (a_late a))
        end
      | LRecDone p => Some (mkA s' (a_reg a) (oupd (a_eff a) p None) (a_late a))
      | _ => Some (mkA s' (a_reg a) (a_eff a) (a_late a))
      end
    end
  end.

Fixpoint arun (a : astate) (ls : list alabel) : option astate :=
  match ls with
  | [] => Some a
  | l :: ls' => match astep a l with Some a' => arun a' ls' | None => None end
  end.
