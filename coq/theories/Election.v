(** Election: executable model of Drummer leader election (election.go) on top
    of the election record kept in the Drummer DB (db.go applyKVUpdate /
    handleKVLookup for key "election-key", a non-finalized KV).

    Model only (Definitions / Fixpoints).  The predicates the C14 theorems are
    stated with are in ElectionSpec.v, the agreement predicates evaluated by the
    correspondence check in ElectionRun.v, the proofs in proofs/ElectionProofs.v
    (operation granularity, single turns), proofs/ElectionLiveProofs.v (turn
    granularity: consistency of reachable states, stability, takeover) and
    proofs/ElectionDBProofs.v ([cas] = DB.kv_update on the election record).

    Mirrors, line by line:
      db.go        applyKVUpdate (non-finalized record), handleKVLookup (absent key = zero KV)
      election.go  setLeaderInfo leaderDead becomeFollower resetFollower becomeLeader
                   leaderMain renewLeadership followerMain campaign, workerMain's ticker function
      drummer.go   sessionUser.getSession / resetSession (only: is a session cached?)
    Parameter of the model: [thr] = deadLeaderMinRound (read from the code by the harness).
    Not modelled: the 10 s wall-clock ticker, dragonboat's session protocol, uint64 wrap-around. *)
From Drummer.Model Require Import Base.

(* ------------------------------------------------------------------ *)
(** * The election record and the DB's compare-and-set rule            *)

(** [None]: key absent.  [Some (instance id, tick)]. *)
Definition rcd := option (N * N).

Inductive code := Updated | Rejected.

Definition code_eqb (a b : code) : bool :=
  match a, b with Updated, Updated => true | Rejected, Rejected => true | _, _ => false end.

Definition holder (r : rcd) : option N :=
  match r with Some (h, _) => Some h | None => None end.

(** applyKVUpdate for a non-finalized stored record: stored iff the key is
    absent, or stored.InstanceId = new.InstanceId, or stored.InstanceId =
    new.OldInstanceId. *)
Definition cas (r : rcd) (self old tick : N) : rcd * code :=
  match r with
  | None => (Some (self, tick), Updated)
  | Some (h, _) =>
      if (h =? self) || (h =? old) then (Some (self, tick), Updated) else (r, Rejected)
  end.

(** handleKVLookup: an absent key answers the zero KV (InstanceId 0, Tick 0). *)
Definition lookup (r : rcd) : N * N :=
  match r with Some x => x | None => (0, 0) end.

(* ------------------------------------------------------------------ *)
(** * One election manager                                             *)

Inductive role := Follower | Leader.

Definition role_eqb (a b : role) : bool :=
  match a, b with Follower, Follower => true | Leader, Leader => true | _, _ => false end.

(** leaderInfo *)
Record linfo := mkL { l_id : N; l_tick : N; l_static : N }.

(** electionManager: instanceID, state, currentLeader, and whether the embedded
    sessionUser holds a cached client session. *)
Record server := mkS { s_id : N; s_role : role; s_cur : option linfo; s_sess : bool }.

Definition with_cur (s : server) (c : option linfo) : server :=
  mkS (s_id s) (s_role s) c (s_sess s).
Definition with_sess (s : server) (b : bool) : server :=
  mkS (s_id s) (s_role s) (s_cur s) b.

(** setLeaderInfo; [None] = panic("unknown state") *)
Definition set_leader_info (s : server) (id tick : N) : option server :=
  match s_cur s with
  | None => Some (with_cur s (Some (mkL id tick 0)))
  | Some c =>
      if (l_id c =? id) && (l_tick c <? tick) then
        Some (with_cur s (Some (mkL (l_id c) tick 0)))
      else if (l_id c =? id) && (l_tick c =? tick) then
        Some (with_cur s (Some (mkL (l_id c) (l_tick c) (l_static c + 1))))
      else if negb (l_id c =? id) then
        Some (with_cur s (Some (mkL id tick 0)))
      else None
  end.

(** leaderDead: staticRound > deadLeaderMinRound *)
Definition leader_dead (thr : N) (s : server) : bool :=
  match s_cur s with
  | None => false
  | Some c => thr <? l_static c
  end.

Definition become_follower (l : option (N * N)) (s : server) : server :=
  mkS (s_id s) Follower
      (match l with Some (i, t) => Some (mkL i t 0) | None => None end) (s_sess s).

Definition reset_follower (s : server) : server :=
  mkS (s_id s) Follower
      (match s_cur s with Some c => Some (mkL (l_id c) (l_tick c) 0) | None => None end)
      (s_sess s).

Definition become_leader (s : server) : server :=
  mkS (s_id s) Leader None (s_sess s).

(* ------------------------------------------------------------------ *)
(** * A turn as a small-step program over atomic DB operations          *)

(** A turn is a resumption: it either is finished, or asks the environment for
    one atomic DB operation and continues with the answer.  Other servers'
    operations (and faults) happen between two requests.
      PRead : getElectionInfo; answer [None] = the lookup failed
      PSess : SyncGetSession (only issued when no session is cached); [false] = unavailable
      PCas  : makeDrummerVote (InstanceId, OldInstanceId, Tick); [None] = an error was reported
      PClose: SyncCloseSession in resetSession (no effect on the record)
      PDone : the turn is over; the flag says that the Go code panicked
              (setLeaderInfo "unknown state", or campaign by a leader). *)
Inductive prog :=
| PDone (s : server) (panicked : bool)
| PRead (k : option (N * N) -> prog)
| PSess (k : bool -> prog)
| PCas (self old tick : N) (k : option code -> prog)
| PClose (k : prog).

(** getSession: continue with [Some s'] (session available) or [None] *)
Definition get_session (s : server) (k : option server -> prog) : prog :=
  if s_sess s then k (Some s)
  else PSess (fun ok => if ok then k (Some (with_sess s true)) else k None).

(** resetSession *)
Definition reset_session (s : server) (k : server -> prog) : prog :=
  if s_sess s then PClose (k (with_sess s false)) else k s.

(** renewLeadership: [kerr] continues after "return err", [kok] after "return nil" *)
Definition renew_leadership (s : server) (tick : N) (kerr kok : server -> prog) : prog :=
  get_session s (fun os =>
    match os with
    | None => kerr s                                   (* "failed to get session" *)
    | Some s1 =>
        PCas (s_id s1) 0 tick (fun r =>
          match r with
          | None => reset_session s1 (fun s2 => kerr (become_follower None s2))
          | Some c =>
              if code_eqb c Updated then kok s1 else kok (become_follower None s1)
          end)
    end).

Definition leader_main (s : server) (tick : N) : prog :=
  PRead (fun a =>
    match a with
    | None => PDone (become_follower None s) false
    | Some (h, t) =>
        if negb (h =? s_id s) then PDone (become_follower (Some (h, t)) s) false
        else renew_leadership s tick (fun s' => PDone s' false) (fun s' => PDone s' false)
    end).

Definition campaign (s : server) (tick : N) : prog :=
  match s_role s with
  | Leader => PDone s true                            (* panic("campaign requested by leader") *)
  | Follower =>
      let old := match s_cur s with Some c => l_id c | None => 0 end in
      get_session s (fun os =>
        match os with
        | None => PDone s false
        | Some s1 =>
            PCas (s_id s1) old tick (fun r =>
              match r with
              | Some Updated =>
                  PRead (fun a =>
                    match a with
                    | None => PDone (reset_follower s1) false
                    | Some (h, _) =>
                        if h =? s_id s1 then PDone (become_leader s1) false
                        else PDone s1 false
                    end)
              | _ => reset_session s1 (fun s2 => PDone (reset_follower s2) false)
              end)
        end)
  end.

Definition follower_main (thr : N) (s : server) (tick : N) : prog :=
  PRead (fun a =>
    match a with
    | None => PDone (reset_follower s) false
    | Some (h, t) =>
        if h =? 0 then campaign s tick
        else if h =? s_id s then
          renew_leadership s tick
            (fun s' => PDone (reset_follower s') false)
            (fun s' => PDone (become_leader s') false)
        else
          match set_leader_info s h t with
          | None => PDone s true
          | Some s1 => if leader_dead thr s1 then campaign s1 tick else PDone s1 false
          end
    end).

(** the ticker function of workerMain: dispatch on isLeader() *)
Definition turn_prog (thr : N) (s : server) (tick : N) : prog :=
  match s_role s with
  | Leader => leader_main s tick
  | Follower => follower_main thr s tick
  end.

(* ------------------------------------------------------------------ *)
(** * Environment: how one operation is answered, with faults           *)

(** FOk: performed and answered.  FLost: fails, not applied.  FAppliedErr: a
    proposal is applied but an error is reported (for a lookup / session
    request it is just a failure). *)
Inductive opfault := FOk | FLost | FAppliedErr.

Definition read_resp (f : opfault) (r : rcd) : option (N * N) :=
  match f with FOk => Some (lookup r) | _ => None end.

Definition sess_resp (f : opfault) : bool :=
  match f with FOk => true | _ => false end.

Definition cas_resp (f : opfault) (r : rcd) (self old tick : N) : rcd * option code :=
  match f with
  | FOk => let '(r', c) := cas r self old tick in (r', Some c)
  | FLost => (r, None)
  | FAppliedErr => (fst (cas r self old tick), None)
  end.

(** what happened, for traces.  [who] is the index of the server.  For ECas:
    the record before, whether the proposal was applied, the DB's result code
    (meaningful when applied) and whether the result reached the caller. *)
Inductive event :=
| ERead (who : nat) (ans : option (N * N))
| ESess (who : nat) (ok : bool)
| ECas (who : nat) (self old tick : N) (before : rcd) (applied : bool) (res : code) (reported : bool)
| EClose (who : nat).

Definition cas_event (who : nat) (f : opfault) (r : rcd) (self old tick : N) : event :=
  ECas who self old tick r
       (match f with FLost => false | _ => true end)
       (snd (cas r self old tick))
       (match f with FOk => true | _ => false end).

Definition ev_who (e : event) : nat :=
  match e with
  | ERead w _ => w | ESess w _ => w | ECas w _ _ _ _ _ _ _ => w | EClose w => w
  end.

(** the instance id a stored write put into the record *)
Definition stored_by (e : event) : option N :=
  match e with
  | ECas _ self _ _ _ true Updated _ => Some self
  | _ => None
  end.

(** effect of an event on the record *)
Definition ev_apply (r : rcd) (e : event) : rcd :=
  match e with
  | ECas _ self old tick _ true _ _ => fst (cas r self old tick)
  | _ => r
  end.

(* ------------------------------------------------------------------ *)
(** * Turn granularity: a whole turn executed atomically                *)

(** faults of one turn, by operation: first lookup, session request, proposal,
    second lookup (the read-back in campaign) *)
Record faults := mkF { f_r1 : opfault; f_s : opfault; f_p : opfault; f_r2 : opfault }.
Definition nofault : faults := mkF FOk FOk FOk FOk.

Fixpoint run_prog (who : nat) (fl : faults) (nreads : nat) (r : rcd) (p : prog)
         (log : list event) : rcd * server * bool * list event :=
  match p with
  | PDone s pn => (r, s, pn, rev log)
  | PRead k =>
      let f := match nreads with O => f_r1 fl | _ => f_r2 fl end in
      let a := read_resp f r in
      run_prog who fl (S nreads) r (k a) (ERead who a :: log)
  | PSess k =>
      let ok := sess_resp (f_s fl) in
      run_prog who fl nreads r (k ok) (ESess who ok :: log)
  | PCas self old tick k =>
      let '(r', a) := cas_resp (f_p fl) r self old tick in
      run_prog who fl nreads r' (k a) (cas_event who (f_p fl) r self old tick :: log)
  | PClose k => run_prog who fl nreads r k (EClose who :: log)
  end.

(** [turn]: leaderMain / followerMain (chosen like workerMain does) executed
    atomically against record [r].  Result: record, manager, panicked?, events. *)
Definition turn (thr : N) (who : nat) (fl : faults) (r : rcd) (s : server) (tick : N)
  : rcd * server * bool * list event :=
  run_prog who fl 0 r (turn_prog thr s tick) [].

(** workerMain's goroutine state: the manager and the local variable [tick] *)
Record wstate := mkW { w_srv : server; w_tick : N }.

(** the system: the record and the servers *)
Record sys := mkSys { y_rec : rcd; y_ws : list wstate }.

Fixpoint upd {A} (l : list A) (i : nat) (x : A) : list A :=
  match l, i with
  | [], _ => []
  | _ :: l', O => x :: l'
  | y :: l', S i' => y :: upd l' i' x
  end.

(** server [i] takes a turn with an explicitly given tick (what the harness does) *)
Definition sys_turn_at (thr : N) (i : nat) (tick : N) (fl : faults) (y : sys)
  : sys * bool * list event :=
  match nth_error (y_ws y) i with
  | None => (y, false, [])
  | Some w =>
      let '(r', s', pn, evs) := turn thr i fl (y_rec y) (w_srv w) tick in
      (mkSys r' (upd (y_ws y) i (mkW s' tick)), pn, evs)
  end.

(** workerMain's ticker function: tick++ and dispatch *)
Definition sys_turn (thr : N) (fl : faults) (y : sys) (i : nat) : sys :=
  match nth_error (y_ws y) i with
  | None => y
  | Some w => fst (fst (sys_turn_at thr i (w_tick w + 1) fl y))
  end.

(** the DB operations of that turn *)
Definition sys_turn_events (thr : N) (fl : faults) (y : sys) (i : nat) : list event :=
  match nth_error (y_ws y) i with
  | None => []
  | Some w => snd (sys_turn_at thr i (w_tick w + 1) fl y)
  end.

(** a fault-free schedule: the listed servers take one turn each, in order *)
Definition run_sched (thr : N) (sched : list nat) (y : sys) : sys :=
  fold_left (sys_turn thr nofault) sched y.

(** events of a fault-free schedule, in order *)
Fixpoint sched_events (thr : N) (sched : list nat) (y : sys) : list event :=
  match sched with
  | [] => []
  | i :: sched' =>
      match nth_error (y_ws y) i with
      | None => sched_events thr sched' y
      | Some w =>
          let '(y', _, evs) := sys_turn_at thr i (w_tick w + 1) nofault y in
          evs ++ sched_events thr sched' y'
      end
  end.

(** rounds: a list of schedules run one after the other *)
Definition run_rounds (thr : N) (rounds : list (list nat)) (y : sys) : sys :=
  fold_left (fun y r => run_sched thr r y) rounds y.

(* observers *)
Definition role_at (y : sys) (i : nat) : option role :=
  match nth_error (y_ws y) i with Some w => Some (s_role (w_srv w)) | None => None end.
Definition is_leader_at (y : sys) (i : nat) : bool :=
  match role_at y i with Some Leader => true | _ => false end.
Definition static_at (y : sys) (i : nat) : N :=
  match nth_error (y_ws y) i with
  | Some w => match s_cur (w_srv w) with Some c => l_static c | None => 0 end
  | None => 0
  end.
Definition id_at (y : sys) (i : nat) : N :=
  match nth_error (y_ws y) i with Some w => s_id (w_srv w) | None => 0 end.

(** fresh servers as newElectionManager creates them *)
Definition new_server (id : N) : server := mkS id Follower None false.
Definition new_sys (ids : list N) : sys := mkSys None (map (fun id => mkW (new_server id) 0) ids).

(* ------------------------------------------------------------------ *)
(** * Operation granularity: servers interleave inside turns            *)

(** a server is between turns ([None]) or inside one, about to issue the
    head operation of its program *)
Record osrv := mkO { o_srv : server; o_prog : option prog }.
Record ocfg := mkOC { oc_rec : rcd; oc_pool : list osrv }.

(** scheduler / environment choices: server [i] starts a turn with tick [t]
    (ignored unless it is between turns); server [i] performs its next
    operation, answered with fault [f] (ignored unless inside a turn). *)
Inductive choice := CStart (i : nat) (tick : N) | COp (i : nat) (f : opfault).

(** store a program: a finished one returns the server to "between turns" *)
Definition settle (p : prog) (old : server) : osrv :=
  match p with
  | PDone s _ => mkO s None
  | _ => mkO old (Some p)
  end.

Definition ostep (thr : N) (c : choice) (y : ocfg) : ocfg * option event :=
  match c with
  | CStart i tick =>
      match nth_error (oc_pool y) i with
      | Some (mkO s None) =>
          (mkOC (oc_rec y) (upd (oc_pool y) i (settle (turn_prog thr s tick) s)), None)
      | _ => (y, None)
      end
  | COp i f =>
      match nth_error (oc_pool y) i with
      | Some (mkO s (Some p)) =>
          let r := oc_rec y in
          match p with
          | PDone s' _ => (mkOC r (upd (oc_pool y) i (mkO s' None)), None)
          | PRead k =>
              let a := read_resp f r in
              (mkOC r (upd (oc_pool y) i (settle (k a) s)), Some (ERead i a))
          | PSess k =>
              let ok := sess_resp f in
              (mkOC r (upd (oc_pool y) i (settle (k ok) s)), Some (ESess i ok))
          | PCas self old tick k =>
              let '(r', a) := cas_resp f r self old tick in
              (mkOC r' (upd (oc_pool y) i (settle (k a) s)), Some (cas_event i f r self old tick))
          | PClose k =>
              (mkOC r (upd (oc_pool y) i (settle k s)), Some (EClose i))
          end
      | _ => (y, None)
      end
  end.

Fixpoint oexec (thr : N) (cs : list choice) (y : ocfg) : ocfg :=
  match cs with
  | [] => y
  | c :: cs' => oexec thr cs' (fst (ostep thr c y))
  end.

(** the events of an execution, in the order in which they happened *)
Fixpoint otrace (thr : N) (cs : list choice) (y : ocfg) : list event :=
  match cs with
  | [] => []
  | c :: cs' =>
      let '(y', e) := ostep thr c y in
      match e with
      | Some e => e :: otrace thr cs' y'
      | None => otrace thr cs' y'
      end
  end.

Definition new_ocfg (ids : list N) : ocfg :=
  mkOC None (map (fun id => mkO (new_server id) None) ids).

(* ------------------------------------------------------------------ *)
(** * Feeding a program arbitrary answers (any interleaving, any fault)  *)

Inductive resp :=
| RRead (a : option (N * N))
| RSess (ok : bool)
| RCas (c : option code)
| RClose.

(** [feed p rs]: answer the operations of [p] with [rs], in order; [None] if
    the answers do not fit the program or are too few / too many. *)
Fixpoint feed (p : prog) (rs : list resp) : option (server * bool) :=
  match p, rs with
  | PDone s pn, [] => Some (s, pn)
  | PRead k, RRead a :: rs' => feed (k a) rs'
  | PSess k, RSess ok :: rs' => feed (k ok) rs'
  | PCas _ _ _ k, RCas c :: rs' => feed (k c) rs'
  | PClose k, RClose :: rs' => feed k rs'
  | _, _ => None
  end.

(** the CAS requests a program issues under given answers: (self, old, tick) *)
Fixpoint cas_requests (p : prog) (rs : list resp) : list (N * N * N) :=
  match p, rs with
  | PRead k, RRead a :: rs' => cas_requests (k a) rs'
  | PSess k, RSess ok :: rs' => cas_requests (k ok) rs'
  | PCas self old tick k, RCas c :: rs' => (self, old, tick) :: cas_requests (k c) rs'
  | PClose k, RClose :: rs' => cas_requests k rs'
  | _, _ => []
  end.
