(** FacadeRun: executable agreement predicates evaluated (vm_compute) by the generated cases
    files of the C19 correspondence check (harness/py/c19.py). Each returns [true] iff the model
    reproduces what the implementation was observed to do. *)
From stdpp Require Import gmap.
From Drummer.Model Require Import Base Facade.

Definition listN_eqb := list_eqb N.eqb.

(** session-kind observation codes used by the harness: 0 tracked, 1 no-op, 2 error
    (3 = Go panic: never produced by the model) *)
Definition qres_num (r : qres) : N :=
  match r with QKind Tracked => 0 | QKind NoOp => 1 | QErr => 2 end.

(** kind case: the events one facade object saw (starts / stops on its NodeHost and its own GetSession
    calls, in execution order) and the observed answers, one per query *)
Definition kcase (evs : list event) (obs : list N) : bool :=
  listN_eqb (map qres_num (run evs)) obs.

(** compact form for the common shape "all starts, then all queries": starts as (shard, type number) *)
Definition sm_type_of_num (n : N) : option sm_type :=
  if n =? 1 then Some Regular else if n =? 2 then Some Concurrent else if n =? 3 then Some OnDisk else None.

Fixpoint start_events (l : list (N * N)) : option (list event) :=
  match l with
  | [] => Some []
  | (s, n) :: l' =>
      match sm_type_of_num n, start_events l' with
      | Some t, Some evs => Some (EStart s t :: evs)
      | _, _ => None
      end
  end.

Definition kq (starts : list (N * N)) (qs obs : list N) : bool :=
  match start_events starts with
  | Some evs => kcase (evs ++ map EQuery qs) obs && listN_eqb (map qres_num (spec_run [] (evs ++ map EQuery qs))) obs
  | None => false
  end.

(** the same through the cache-free specification: used to cross-check model against spec on
    every generated case (the theorem C19_kind_run says they always agree) *)
Definition kspec (evs : list event) (obs : list N) : bool :=
  listN_eqb (map qres_num (spec_run [] evs)) obs.

(** session conversion case: field values [v] (declaration order) and the observed field lists of
    ToNodeHostSession(pb), ToPBSession(ToNodeHostSession(pb)), ToPBSession(nh),
    ToNodeHostSession(ToPBSession(nh)), updatePBSession(zero, nh) *)
Definition scase (v : list N) (pb_nh pb_nh_pb nh_pb nh_pb_nh upd : list N) : bool :=
  match v with
  | [a; b; c; d] =>
      let p := mkPS a b c d in
      let s := mkNS a b c d in
      listN_eqb (ns_fields (to_nh p)) pb_nh &&
      listN_eqb (ps_fields (to_pb (to_nh p))) pb_nh_pb &&
      listN_eqb (ps_fields (to_pb s)) nh_pb &&
      listN_eqb (ns_fields (to_nh (to_pb s))) nh_pb_nh &&
      listN_eqb (ps_fields (update_pb (mkPS 0 0 0 0) s)) upd
  | _ => false
  end.

(** error table case: error value and the observed numeric status code *)
Definition ecase (e : err) (c : N) : bool := code_num (grpc_code e) =? c.

(** nil error case *)
Definition ecase_nil (stays_nil : bool) : bool :=
  Bool.eqb stays_nil (match grpc_error None with None => true | Some _ => false end).

(** transparency cases. The local call is what the harness observed / predicted for the same
    arguments in the same state: [lr] its result (value or error); the facade observation is a
    status code (0 = no error) and the returned value / data. *)
Definition const_propose (lr : lres N) : unit -> nh_session -> list N -> lres (N * nh_session) * unit :=
  fun w cs _ => (match lr with LOk v => LOk (v, cs) | LErr e => LErr e end, w).

Definition pcase (sess : list N) (lr : lres N) (fcode fval : N) (fsess : list N) : bool :=
  match sess with
  | [a; b; c; d] =>
      let req := mkProp (mkPS a b c d) [] in
      match facade_propose (const_propose lr) tt req with
      | (FOk r, p', _) => (fcode =? 0) && (rs_result r =? fval) && listN_eqb (ps_fields p') fsess
      | (FErr k, _, _) => code_num k =? fcode
      end
  | _ => false
  end.

Definition const_read (lr : lres (list N)) : unit -> N -> list N -> lres (list N) * unit :=
  fun w _ _ => (lr, w).

Definition rcase (lr : lres (list N)) (fcode : N) (fdata : list N) : bool :=
  match facade_read (const_read lr) tt (mkRead 0 []) with
  | (FOk r, _) => (fcode =? 0) && listN_eqb (rs_data r) fdata
  | (FErr k, _) => code_num k =? fcode
  end.

(** CloseSession case: the session (four fields), what the local SyncCloseSession returned for it
    ([None] = closed) and the observed status code (0 = completed without error) *)
Definition ccase (sess : list N) (lr : option err) (fcode : N) : bool :=
  match sess with
  | [a; b; c; d] =>
      match facade_close_session (fun (w : unit) (_ : nh_session) => (lr, w)) tt (mkPS a b c d) with
      | (FOk _, _) => fcode =? 0
      | (FErr k, _) => code_num k =? fcode
      end
  | _ => false
  end.
